"""C02 - error-free reads reproduce the true haplotypes.

(a) ef_lemma (LLSym): the solver lemma at the solver interface - for every
    instance whose entries are error-free copies of two complementary true
    haplotypes the real PedigreeDPTable reports cost 0, and on every
    read-connected component its two super reads are the true haplotypes up to
    exchanging them as a whole; no allele is flagged as a tie.
(b) ef_detect (PySym): the input side of the lemma - ReadSetReader (with a
    reference, and without one for SNVs) never records, for a read that is an
    exact copy of a haplotype, the allele that haplotype does not carry; also
    for variants the read covers only in part (C06 is silent about those).
    Harness, models and replay are those of checks/c06.py (sub-check `one`).
The remaining pipeline stages around the solver are covered by their own
properties (C07 selection, C03 components, C04/C09 writer) - see DESIGN.md 4
C02 for what is outside this claim."""
import itertools

import z3

from checks.c01 import DPCheck, single, interval_shapes, decode_outputs

PROPERTY = "C02"


def components(shape):
    """read-connected components of the columns (columns covered by a common read are linked)"""
    C = shape["ncols"]
    comp = list(range(C))

    def find(x):
        while comp[x] != x:
            x = comp[x]
        return x

    for rd in shape["reads"]:
        cs = rd["cols"]
        for c in cs[1:]:
            a, b = find(cs[0]), find(c)
            if a != b:
                comp[max(a, b)] = min(a, b)
    return [find(c) for c in range(C)]


class ErrorFree(DPCheck):
    name = "ef_lemma"
    required_cover = ["symbolic run completed", "state merging exercised", "zero cost", "true haplotypes per component", "two components"]
    assumptions = DPCheck.assumptions + ["every entry is h[column] xor s[read] for arbitrary true haplotype h and read source s; weights >= 1 (a zero weight carries no information); genotypes heterozygous at every column (the sample's true genotype)"]

    def shapes(self, tier):
        out = []
        W = 15 if tier == "quick" else 63
        cov = 2 if tier == "quick" else 3
        for C in (2, 3, 4):
            for R in (1, 2, 3, 4):
                for sh in interval_shapes(C, R, cov):
                    out.append(single(C, sh, W=W, Wmin=1, Rc=0, errorfree=True))
        # gapped / paired reads, two components, chains with column dropping
        out.append(single(4, [(0, 1), (2, 3)], W=W, Wmin=1, Rc=0, errorfree=True))
        out.append(single(4, [(0, 3), (1, 2)], W=W, Wmin=1, Rc=0, errorfree=True))
        out.append(single(4, [(0, 2), (1, 3)], W=W, Wmin=1, Rc=0, errorfree=True))
        out.append(single(5, [(0, 1), (1, 2), (3, 4)], W=W, Wmin=1, Rc=0, errorfree=True))
        out.append(single(6, [(0, 1), (1, 2), (2, 3), (3, 4), (4, 5)], W=W, Wmin=1, Rc=0, errorfree=True))
        if tier != "quick":
            out.append(single(6, [(0, 1, 2), (1, 2, 3), (2, 3, 4), (3, 4, 5)], W=W, Wmin=1, Rc=0, errorfree=True))
            out.append(single(5, [(0, 4), (0, 1, 2), (2, 3, 4)], W=W, Wmin=1, Rc=0, errorfree=True))
        return out

    def bounds(self, tier):
        return "%d single-sample shapes (all interval-read multisets with coverage <= %d, <= 4 reads, <= 4 columns; gapped/nested reads; two components; chains to 6 columns); per shape ALL true haplotypes, ALL read->haplotype assignments and ALL weights in [1,%d] at once" % (len(self.shapes(tier)), 2 if tier == "quick" else 3, 15 if tier == "quick" else 63)

    def obligations(self, run, orc, tier):
        from vf.llsym import dpcheck

        it, shape = run.it, run.shape
        outs = {k: v[1] for k, v in it.outputs.items()}
        C = shape["ncols"]
        cost = dpcheck.to_z3(it, outs[("cost", 0)])
        yield ("cost is zero", cost != 0, "zero cost")
        comp = components(shape)
        if len(set(comp)) > 1:
            yield ("(two components present)", z3.BoolVal(False), "two components")
        h = [z3.Int("h_%d" % c) for c in range(C)]
        s0 = [dpcheck.to_z3(it, outs[("sr_0_0", c)]) for c in range(C)]
        s1 = [dpcheck.to_z3(it, outs[("sr_0_1", c)]) for c in range(C)]
        for root in sorted(set(comp)):
            cols = [c for c in range(C) if comp[c] == root]
            same = z3.And(*[z3.And(s0[c] == h[c], s1[c] == 1 - h[c]) for c in cols])
            swapped = z3.And(*[z3.And(s0[c] == 1 - h[c], s1[c] == h[c]) for c in cols])
            yield ("component %s carries the true haplotypes" % cols, z3.Not(z3.Or(same, swapped)), "true haplotypes per component")

    def judge_concrete(self, shape, inp, native):
        st, exc, outs = native
        if st != "ok":
            return "solver failed on an error-free instance: %s" % (exc or st)
        if outs[("cost", 0)] != 0:
            return "error-free reads but reported cost %d" % outs[("cost", 0)]
        comp = components(shape)
        C = shape["ncols"]
        for root in sorted(set(comp)):
            cols = [c for c in range(C) if comp[c] == root]
            a = [outs[("sr_0_0", c)] for c in cols]
            b = [outs[("sr_0_1", c)] for c in cols]
            h = [inp["h_%d" % c] for c in cols]
            nh = [1 - x for x in h]
            if not ((a == h and b == nh) or (a == nh and b == h)):
                return "component %s: super reads %s / %s are not the true haplotypes %s / %s" % (cols, a, b, h, nh)
        return None


from checks import c06 as _c06


class ErrorFreeDetection(_c06.One):
    """C06's single-variant harness with the stronger claim C02 needs: whatever part of the variant the read covers, the
    recorded allele is the carried one or none."""

    name = "ef_detect"
    partial_claim = True
    required_cover = [
        "fully covered snv carried=alt",
        "fully covered del carried=ref",
        "partially covered del carried=ref",
        "partially covered del carried=alt",
        "partially covered ins carried=alt",
        "partially covered mnp carried=alt",
        "partially covered mnp carried=ref",
        "allele recorded for a partially covered variant",
    ]

    def shapes(self, tier):
        out = []
        for sh in _c06.One.shapes(self, tier):
            if sh["deco"] not in ("plain", "clips"):
                continue  # clipped reads (soft and hard clips on both ends) are ordinary input of `whatshap phase`
            # C02 claims indels/MNPs with a reference only; overhang 0 is a `genotype`-only setting with known C06 findings
            if sh["mode"] == "realign" and sh["ov"] >= 1 or sh["mode"] == "cigar" and sh["kind"] == "snv":
                out.append(sh)
        return out

    def bounds(self, tier):
        return "as C06 `one`, plain and clipped (H/S on both ends) CIGARs: " + _c06.One.bounds(self, tier) + "; restricted to re-alignment with overhang >= 1 (all variant kinds) and CIGAR-based detection of SNVs"


class ErrorFreeSources(_c06._C06Base):
    """Reads of one sample that come from two input files.  Read names are unique within a BAM file only: a read of the
    second file may carry the name of a read of the first.  Each is an error-free copy of its own haplotype, so each has to
    arrive in the read set as its own read (name, source id) carrying only alleles of its own haplotype - the hypothesis of
    the solver lemma (one haplotype per read) is about the reads the solver sees."""

    name = "ef_sources"
    required_cover = ["same read name in both input files", "the two reads copy different haplotypes", "both reads keep their own alleles", "variant covered by one of the two reads only"]
    assumptions = ["two input files (source ids 0 and 1) of one sample; one single-end read each; each read is an exact copy of one haplotype over its interval; two SNVs",
                   "alignments are handed to ReadSetReader in coordinate order, as MultiBamReader merges the files"]

    def shapes(self, tier):
        out = []
        for mode, ov in [("cigar", 0), ("realign", 1)]:
            for same in (True, False):
                for layout in ("both-all", "left-right", "all-right"):
                    out.append(dict(mode=mode, ov=ov, same_name=same, layout=layout, L=6 if tier == "quick" else 8))
        return out

    def bounds(self, tier):
        return "reference of %d symbolic bases, two SNVs at every pair of positions, one read per input file (same name / different names; both over everything, left and right half, everything and right half), every combination of carried alleles; CIGAR-based and re-alignment (overhang 1) detection" % (6 if tier == "quick" else 8)

    def harness(self, e, shape, impl):
        L = shape["L"]
        R = [_c06._base(e, "r%d" % i) for i in range(L)]
        p1, p2 = e.choice("pp", [(a, b) for a in range(L) for b in range(a + 1, L)])
        vs = [_c06._mk_var(e, R, "v", "snv", p1), _c06._mk_var(e, R, "w", "snv", p2)]
        if not all(v.ok for v in vs):
            e.assume(False)
        carried = [[e.bit("h%d_%d" % (r, i)) for i in range(2)] for r in range(2)]
        spans = {"both-all": [(0, L), (0, L)], "left-right": [(0, L // 2), (L // 2, L)], "all-right": [(0, L), (L // 2, L)]}[shape["layout"]]
        names = ["p", "p" if shape["same_name"] else "q"]
        if shape["same_name"]:
            e.cover("same read name in both input files")
        if carried[0] != carried[1]:
            e.cover("the two reads copy different haplotypes")
        alns = []
        for r in range(2):
            hap = [v.norm[h] for v, h in zip(vs, carried[r]) if h > 0]
            d = _c06._derive_alignment(e, R, hap, spans[r][0], spans[r][1], {}, "%s.%d" % (names[r], r))
            if d is None:
                e.assume(False)
            alns.append((names[r], 0, spans[r][0], d[0], d[1], None, r))
        alns.sort(key=lambda t: t[2])
        ctx = lambda: dict(mode=shape["mode"], reference=_c06._txt(e, R), snv_positions=[p1, p2], carried_alleles=carried,
                           alignments=[dict(name=n, input_file=src, start=st, cigar="".join("%d%s" % (l, _c06.OPCH[op]) for op, l in c), seq=_c06._txt(e, q)) for n, f, st, c, q, ql, src in alns])
        try:
            got = impl.run(shape["ov"], [(v.pos, v.ref, v.alts) for v in vs], R if shape["mode"] == "realign" else None, alns, with_source=True)
        except Exception as ex:  # noqa
            e.check(False, "reading two input files raised %s" % type(ex).__name__, lambda: dict(ctx(), error=str(ex)[:200]))
        e.out("readset", sorted(got))
        ctx2 = lambda: dict(ctx(), readset=e.value(sorted(got)))
        fine = True
        for r in range(2):
            mine = [g for g in got if g[0] == names[r] and g[1] == r]
            covered = [i for i, v in enumerate(vs) if spans[r][0] <= v.pos < spans[r][1]]
            if len(covered) == 1:
                e.cover("variant covered by one of the two reads only")
            if not covered:
                continue
            e.check(len(mine) == 1, "the read of input file %d is not in the read set as a read of its own (reads of different input files merged or dropped)" % r, ctx2)
            rec = {p: a for p, a, q in mine[0][2]}
            for i, v in enumerate(vs):
                if i in covered:
                    e.check(rec.get(v.pos) == carried[r][i], "a read of input file %d does not carry the allele of its haplotype (error-free read, fully covered SNV)" % r, ctx2)
                else:
                    e.check(v.pos not in rec, "a read of input file %d carries an allele at a variant it does not cover" % r, ctx2)
        e.check(len(got) == sum(1 for r in range(2) if any(spans[r][0] <= v.pos < spans[r][1] for v in vs)), "the read set holds another number of reads than the input files have informative reads", ctx2)
        e.cover("both reads keep their own alleles")

    def classify(self, shape, v):
        return "ef_sources:%s:same_name=%s" % (v["msg"], shape["same_name"])


SUBCHECKS = {c.name: c for c in [ErrorFree(), ErrorFreeDetection(), ErrorFreeSources()]}
