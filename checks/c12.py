"""C12 - `whatshap stats` counts add up and describe the phase sets present in the file.

The *whole* command function `whatshap.cli.stats.run_stats` is executed symbolically (PySym), together with the
record-to-table code of `whatshap.vcf.VcfReader` that feeds it; only pysam's VariantFile is replaced by a read-only
model (vf/models/vcfread_model.py) and the three output files by in-memory captures.  Positions are symbolic
integers; call class, phase-set membership, SNV flag are solver-chosen structure.  Every explored path is replayed
end-to-end on the real build: the witness is written as VCF text into a scratch directory and the real `run_stats`
(real pysam, real compiled whatshap.core) is run on it with --tsv/--block-list/--gtf; the files it writes are parsed
and judged by the same oracle.

Sub-checks
  counts   every call class (hom, phased hom, het, phased het in up to 3 sets, phased het without PS, `./.`, `0/.`,
           `.|1`), SNV / non-SNV records, --only-snvs, --chromosome, PS and HP encodings: reported numbers == an
           independent count; identities; block list; ALL row
  blocks   het calls only (unphased or member of one of up to 3 phase sets, arbitrarily interleaved / nested),
           more variants: block-list extents and sizes, sum of block lengths bounded by the covered span, ALL row
"""
import contextlib
import io
import os
import shutil
import tempfile

from vf.runner import SubCheck
from vf.pysym.loader import SymWorld

PROPERTY = "C12"
SAMPLE = "s1"
ID_VALUES = [7, 3, 9]  # phase-set ids by order of first use (numeric order differs from it on purpose)
CHROMS = ["chr1", "chr2", "chr3"]
ADDITIVE = [
    "variants", "phased", "unphased", "singletons", "blocks", "variant_per_block_sum", "bp_per_block_sum",
    "heterozygous_variants", "heterozygous_snvs", "phased_snvs",
]
COUNTED = ["variants", "heterozygous_variants", "heterozygous_snvs", "phased", "phased_snvs", "unphased", "singletons", "blocks"]

# call classes: name -> (is a heterozygous call, is phased, genotype is missing/partial)
CLASSES = {
    "hom": (False, False, False),  # 0/0
    "homp": (False, False, False),  # 1|1 inside a phase set (PS) / 1/1 carrying HP
    "het": (True, False, False),  # 0/1
    "ph": (True, True, False),  # 0|1:PS=id   or 0/1:HP=id-1,id-2
    "phx": (True, True, False),  # 0|1 without a PS value (PS encoding only)
    "miss": (False, False, True),  # ./.
    "part": (False, False, True),  # 0/.
    "partp": (False, True, True),  # .|1:PS=id   or ./1:HP=id-1,id-2
}
NEEDS_ID = ("ph", "homp", "partp")


class _Capture:
    """In-memory stand-in for open()/print() inside whatshap.cli.stats: keeps the *raw* printed values (no str())."""

    class File:
        def __init__(self, name):
            self.name = name
            self.lines = []
            self.cur = []

        def __enter__(self):
            return self

        def __exit__(self, *a):
            return False

    def __init__(self):
        self.files = {}

    def open(self, name, mode="r", *a, **k):
        if "w" not in mode:
            raise OSError("capture: only files opened for writing are modelled (%s)" % name)
        f = self.File(name)
        self.files[name] = f
        return f

    def print(self, *args, sep=" ", end="\n", file=None, flush=False):
        if not isinstance(file, _Capture.File):
            return  # console output is not observed
        file.cur.extend(args)
        if end.endswith("\n"):
            file.lines.append(file.cur)
            file.cur = []

    def lines(self, name):
        f = self.files.get(name)
        return None if f is None else f.lines


def _num(s):
    try:
        return int(s)
    except ValueError:
        return float(s)


class _Result:
    def __init__(self):
        self.error = None
        self.rows = []  # [(chromosome, {field: value})]
        self.blocklist = None  # [(sample, chromosome, id, from, to, n)]
        self.gtf = []  # [(chromosome, start1, stop, text)]

    def fill(self, tsv, bl, gtf, parse):
        header = [str(x) for x in tsv[0]]
        for line in tsv[1:]:
            d = dict(zip(header, line))
            self.rows.append((d["chromosome"], {k: (parse(v) if parse else v) for k, v in d.items() if k not in ("#sample", "chromosome", "file_name")}, d["#sample"]))
        if bl is not None:
            self.blocklist = []
            for line in bl[1:]:
                s, c, i, a, b, n = line
                if parse:
                    i = None if i == "None" else int(i)
                    a, b, n = int(a), int(b), int(n)
                self.blocklist.append((s, c, i, a, b, n))
        for line in gtf:
            if parse:
                self.gtf.append((line[0], int(line[3]), int(line[4]), line[8]))
            else:
                self.gtf.append((line[0], line[3], line[4], line[8]))


class SymStats:
    """run_stats of the symbolic world over the VariantFile model."""

    def __init__(self, stats_mod, vcf_mod, model):
        self.stats, self.vcf, self.model = stats_mod, vcf_mod, model

    def run(self, content, only_snvs, chromosomes, block_list, sample=None):
        self.model.FILES.clear()
        self.model.FILES["in.vcf"] = content
        cap = _Capture()
        self.stats.open = cap.open
        self.stats.print = cap.print
        res = _Result()
        try:
            self.stats.run_stats(vcf="in.vcf", tsv="tsv", block_list="bl" if block_list else None, gtf="gtf", only_snvs=only_snvs, chromosomes=chromosomes, sample=sample)
        except Exception as ex:
            res.error = type(ex).__name__
            return res
        res.fill(cap.lines("tsv"), cap.lines("bl"), cap.lines("gtf") or [], None)
        return res


class RealStats:
    """The real whatshap.cli.stats.run_stats on a VCF file written from the witness (real pysam, real whatshap.core)."""

    def __init__(self, stats_mod):
        self.stats = stats_mod
        self.dir = None  # scratch directory of the current job (set and removed by _Base.run / replay)

    def run(self, content, only_snvs, chromosomes, block_list, sample=None):
        own = self.dir is None
        d = tempfile.mkdtemp(prefix="c12-", dir="/var/tmp") if own else self.dir
        res = _Result()
        try:
            p = os.path.join(d, "in.vcf")
            with open(p, "w") as f:
                f.write(content.text())
            try:
                with contextlib.redirect_stdout(io.StringIO()):
                    self.stats.run_stats(vcf=p, tsv=os.path.join(d, "tsv"), block_list=os.path.join(d, "bl") if block_list else None, gtf=os.path.join(d, "gtf"), only_snvs=only_snvs, chromosomes=chromosomes, sample=sample)
            except Exception as ex:
                res.error = type(ex).__name__
                return res

            def rd(name):
                return [l.rstrip("\n").split("\t") for l in open(os.path.join(d, name))]

            res.fill(rd("tsv"), rd("bl") if block_list else None, rd("gtf"), _num)
            return res
        finally:
            if own:
                shutil.rmtree(d, ignore_errors=True)


class _Failed(Exception):
    pass


def _noop_print(self):
    return None


class _Base(SubCheck):
    encoded = [
        "whatshap.cli.stats.run_stats", "get_phase_blocks", "PhasedBlock.{add,span,variants,count_snvs,split,__len__,__lt__}",
        "PhasingStats.{__iadd__,add_blocks,add_unphased,add_variants,add_heterozygous_variants,add_heterozygous_snvs,get_nonoverlapping_blocks,get_detailed_stats}",
        "DetailedStats", "write_to_block_list", "GtfWriter.write", "GtfBlock", "unpack_chromosomes", "parse_variant_tables", "get_chr_lengths", "compute_ng50",
        "whatshap.vcf.VcfReader.{__init__,__iter__,_process_single_chromosome,_extract_HP_phase,_extract_GT_PS_phase}", "genotype_code", "VariantTable", "BiallelicVcfVariant",
    ]
    sources = ["whatshap/cli/stats.py", "whatshap/vcf.py"]
    assumptions = [
        "single-sample diploid VCF, biallelic records with an ALT allele (records without ALT and multi-ALT records are skipped by the reader and are not generated)",
        "records sorted by position with pairwise distinct positions inside a chromosome (the reader raises on unsorted input and skips duplicated positions)",
        "a file uses either the PS or the HP encoding, not both (mixing is rejected by the reader; that is C09's subject)",
        "phase-set ids are non-zero integers",
        "weaker reading of 'covered span': per chromosome, last minus first position among the variants that belong to a phase set with >= 2 members (the union of the sets' intervals would be a stronger bound)",
        "the ALL row is required to exist when >= 2 per-chromosome rows were written, and to equal their sum in the additive fields whenever it exists",
        "under --only-snvs the 'file' being counted consists of the SNV records only",
    ]
    stubs = [
        "pysam.VariantFile -> vf/models/vcfread_model.VariantFile (read-only record/call model; every path is replayed on VCF text parsed by real pysam)",
        "open()/print() inside whatshap.cli.stats -> in-memory capture of the raw printed values (the replay reads the real files)",
        "DetailedStats.print (console formatting; would concretise the symbolic block lengths) -> no-op in the symbolic run; its internal assert phased+unphased+singletons==heterozygous is asserted by the oracle on the TSV row; the replay runs the real method",
        "whatshap.core.Genotype -> vf/models/core_model.Genotype (replay uses the compiled class)",
        "whatshap.cli package __init__ (imports BAM/alignment extensions) -> stub providing CommandLineError only",
    ]

    def setup(self):
        import types
        from vf.models import core_model, vcfread_model
        from vf import build

        cli = types.ModuleType("whatshap.cli")
        cli.__path__ = []

        class CommandLineError(Exception):
            pass

        cli.CommandLineError = CommandLineError
        self.world = SymWorld(overrides={"whatshap.core": core_model, "whatshap.cli": cli})
        stats = self.world.load("whatshap.cli.stats")
        vcf = self.world.load("whatshap.vcf")
        vcf.VariantFile = vcfread_model.VariantFile
        stats.DetailedStats.print = _noop_print
        self.model = vcfread_model
        self._sym = SymStats(stats, vcf, vcfread_model)
        build.load_real(["core"])
        import logging
        import whatshap.cli.stats as real_stats

        logging.getLogger("whatshap").setLevel(logging.CRITICAL)
        self._real = RealStats(real_stats)

    def sym_impl(self):
        return self._sym

    def real_impl(self):
        return self._real

    def run(self, shape, tier, seed):
        self._real.dir = tempfile.mkdtemp(prefix="c12-", dir="/var/tmp")
        try:
            return super().run(shape, tier, seed)
        finally:
            shutil.rmtree(self._real.dir, ignore_errors=True)
            self._real.dir = None

    # -- input construction ---------------------------------------------------
    def build_input(self, e, shape):
        """Returns (records for the oracle, VcfContent)."""
        from vf.models.vcfread_model import RecordSpec, VcfContent

        tag, dot = shape["tag"], shape["dot"]
        menu = shape["menu"]
        recs, specs = [], []
        for ci, cnt in enumerate(shape["n"]):
            chrom = CHROMS[ci]
            prev = None
            used = 0
            for k in range(cnt):
                nm = "%d.%d" % (ci, k)
                pos = e.int("pos" + nm, 0, 3000 if shape.get("lengths") else 100000)
                if prev is not None:
                    e.assume(prev < pos)
                prev = pos
                if ci == 0 and k == 0 and "cls0" in shape:  # class of the first record enumerated by the shape (spreads big shapes over jobs)
                    cls = shape["cls0"]
                else:
                    cls = e.choice("cls" + nm, menu)
                snv = e.bit("snv" + nm) if shape["snv"] else 1
                j = None
                if cls in NEEDS_ID:
                    j = e.choice("id" + nm, range(min(used + 1, len(ID_VALUES))))
                    used = max(used, j + 1)
                is_het, is_ph, is_none = CLASSES[cls]
                key = None
                if is_ph:
                    key = ("id", ID_VALUES[j]) if cls != "phx" else ("id", None if dot else 0)
                recs.append(dict(chrom=chrom, pos=pos, snv=bool(snv), cls=cls, het=is_het, ph=is_ph, none=is_none, key=key))
                # text of the call
                idv = ID_VALUES[j] if j is not None else None
                if tag == "PS":
                    gt = {"hom": "0/0", "homp": "1|1", "het": "0/1", "ph": "0|1", "phx": "1|0", "miss": "./.", "part": "0/.", "partp": ".|1"}[cls]
                    if idv is not None:
                        extra = [("PS", str(idv))]
                    else:
                        extra = [("PS", ".")] if dot else []
                else:
                    gt = {"hom": "0/0", "homp": "1/1", "het": "0/1", "ph": "0/1", "miss": "./.", "part": "0/.", "partp": "./1"}[cls]
                    if idv is not None:
                        extra = [("HP", "%d-1,%d-2" % (idv, idv))]
                    else:
                        extra = [("HP", ".")] if dot else []
                specs.append(RecordSpec(chrom, pos, "A", "C" if snv else "CT", gt, extra))
        # contig lengths are only needed for NG50 (no clause of the property; the value is compared between the
        # symbolic run and the real run)
        content = VcfContent(SAMPLE, [(c, 4000 if shape.get("lengths") else None) for c in CHROMS], specs)
        return recs, content

    # -- independent count ------------------------------------------------------
    @staticmethod
    def expected(recs, only_snvs, chromosomes, none_is_het):
        """Independent count per chromosome (file order).  none_is_het=True is the
        defect-tolerant variant used only to tell the known finding from anything else."""
        present = [c for c in CHROMS if any(r["chrom"] == c for r in recs)]
        if chromosomes is None:
            selected = present
        else:
            given = [x for entry in chromosomes for x in entry.split(",") if x]
            selected = []
            seen = set()
            for c in present:  # the file is read front to back until every requested chromosome was met
                seen.add(c)
                if c in given:
                    selected.append(c)
                if set(given) <= seen:
                    break
        out = []
        for c in selected:
            proc = [r for r in recs if r["chrom"] == c and (r["snv"] or not only_snvs)]
            het = [r for r in proc if r["het"] or (r["none"] and none_is_het)]
            sets = {}
            unph = 0
            for r in het:
                if r["ph"]:
                    sets.setdefault(r["key"], []).append(r)
                else:
                    unph += 1
            big = [s for s in sets.values() if len(s) >= 2]
            inbig = [r for r in het if r["ph"] and len(sets[r["key"]]) >= 2]
            d = dict(
                variants=len(proc),
                heterozygous_variants=len(het),
                heterozygous_snvs=sum(1 for r in het if r["snv"]),
                phased=sum(len(s) for s in big),
                phased_snvs=sum(1 for s in big for r in s if r["snv"]),
                unphased=unph,
                singletons=sum(1 for s in sets.values() if len(s) == 1),
                blocks=len(big),
            )
            # positions increase in file order (assumption), so first/last are min/max
            lines = {k[1]: (s[0]["pos"] + 1, s[-1]["pos"] + 1, len(s)) for k, s in sets.items()}
            span = (inbig[-1]["pos"] - inbig[0]["pos"]) if inbig else 0
            out.append((c, d, lines, span))
        return out

    def judge(self, e, recs, res, only_snvs, chromosomes, block_list, none_is_het):
        """First failed clause (message) or None.  Conditions over symbolic positions are decided by the engine
        (both outcomes explored), exactly as e.check would."""
        try:
            self._judge(e, recs, res, only_snvs, chromosomes, block_list, none_is_het)
        except _Failed as f:
            return f.args[0]
        return None

    def _judge(self, e, recs, res, only_snvs, chromosomes, block_list, none_is_het):
        def check(cond, msg):
            if not cond:
                raise _Failed(msg)

        exp = self.expected(recs, only_snvs, chromosomes, none_is_het)
        rows = [r for r in res.rows if r[0] != "ALL"]
        allrows = [r for r in res.rows if r[0] == "ALL"]
        check([r[0] for r in rows] == [x[0] for x in exp], "TSV: per-chromosome rows do not match the chromosomes of the file")
        for (c, d, lines, span), (_, got, smp) in zip(exp, rows):
            check(smp == getattr(self, "_reported_sample", SAMPLE), "TSV: wrong sample column")
            for f in COUNTED:
                check(got[f] == d[f], "TSV: %s differs from an independent count over the file" % f)
            check(got["phased"] + got["unphased"] + got["singletons"] == got["heterozygous_variants"], "phased + unphased + singletons != heterozygous variants")
            check(got["variant_per_block_sum"] == got["phased"], "sum of block sizes != phased")
            check(got["bp_per_block_sum"] <= span, "sum of block lengths exceeds the covered span")
            if block_list:
                mine = [l for l in res.blocklist if l[1] == c]
                check(len(mine) == len(lines), "block list: number of lines != number of phase sets")
                for s, _, i, a, b, n in mine:
                    check(s == getattr(self, "_reported_sample", SAMPLE), "block list: wrong sample column")
                    check(i in lines, "block list: line for a phase set that is not in the file")
                    check(n == lines[i][2], "block list: size of a phase set is wrong")
                    check(a == lines[i][0], "block list: start of a phase set is not its leftmost variant")
                    check(b == lines[i][1], "block list: end of a phase set is not its rightmost variant")
                check(len({l[2] for l in mine}) == len(mine), "block list: a phase set is listed twice")
        if block_list:
            check(all(l[1] in [x[0] for x in exp] for l in res.blocklist), "block list: line for a chromosome that was not processed")
        check(len(allrows) <= 1, "TSV: more than one ALL row")
        if len(rows) >= 2:
            check(len(allrows) == 1, "TSV: ALL row missing although several chromosomes were reported")
        if allrows:
            e.cover("ALL row")
            for f in ADDITIVE:
                tot = 0
                for r in rows:
                    tot = tot + r[1][f]
                check(allrows[0][1][f] == tot, "ALL row: %s is not the sum of the per-chromosome rows" % f)

    def harness(self, e, shape, impl):
        recs, content = self.build_input(e, shape)
        only_snvs, chromosomes = shape["only_snvs"], shape["chromosomes"]
        n_none = sum(1 for r in recs if r["none"])
        desc = lambda: dict(calls=[(r["chrom"], r["cls"], "snv" if r["snv"] else "indel", r["key"][1] if r["key"] else None) for r in recs], none_genotype_calls=n_none)
        self.cover_input(e, recs, shape)
        sample_arg = getattr(self, "_sample_arg", None)
        res = impl.run(content, only_snvs, chromosomes, True, sample_arg)
        block_list = True
        crash = None
        if res.error is not None:
            # a None phase-set id next to an integer one cannot be sorted by write_to_block_list:
            # judge the remaining outputs without --block-list, then report the crash
            crash = res.error
            keys_by_chrom = {}
            for r in recs:
                if r["key"] is not None and (r["snv"] or not only_snvs):
                    keys_by_chrom.setdefault(r["chrom"], set()).add(r["key"][1])
            mixed = any(None in ks and len(ks) > 1 for ks in keys_by_chrom.values())
            res = impl.run(content, only_snvs, chromosomes, False, sample_arg)
            block_list = False
            e.check(res.error is None, "run_stats raised %s" % res.error, lambda: dict(desc(), cause="crash"))
            e.cover("crash only with --block-list")
        for c, row, _ in res.rows:
            for f in COUNTED + ["variant_per_block_sum", "variant_per_block_min", "variant_per_block_max", "bp_per_block_sum", "bp_per_block_min", "bp_per_block_max"]:
                e.out("%s.%s" % (c, f), row[f])
        e.out("blocklist", res.blocklist)
        e.out("gtf", res.gtf)
        if shape.get("lengths"):
            for c, row, _ in res.rows:
                v = row["block_n50"]
                e.out("%s.block_n50" % c, None if (isinstance(v, float) and v != v) else v)
                e.cover("NG50 computed")
        if n_none:
            e.cover("missing or partial genotype present")
        failed = self.judge(e, recs, res, only_snvs, chromosomes, block_list, False)
        if failed is not None and n_none:
            # Is the failure exactly what results from treating the missing/partial genotypes as heterozygous
            # (the known defect)?  Then every clause holds under that reading; anything else is reported as new.
            other = self.judge(e, recs, res, only_snvs, chromosomes, block_list, True)
            if other is None:
                e.check(False, failed, lambda: dict(desc(), explained_by="missing/partial genotype counted as heterozygous"))
            e.check(False, other, lambda: dict(desc(), explained_by=None, strict_failure=failed))
        e.check(failed is None, failed, desc)
        if crash is not None:
            e.check(False, "run_stats with --block-list raised %s" % crash, lambda: dict(desc(), cause="ps-missing-next-to-ps" if mixed else "crash"))

    def cover_input(self, e, recs, shape):
        pass

    def classify(self, shape, v):
        info = v.get("info") or {}
        msg = v["msg"]
        if info.get("cause") == "ps-missing-next-to-ps":
            return "%s:block-list-crash:phased-call-without-PS-next-to-PS:%s" % (self.name, msg)
        if info.get("explained_by") and info.get("none_genotype_calls", 0) > 0:
            # every clause holds on this path once the missing/partial genotypes are counted as heterozygous
            return "%s:none-genotype-counted-as-heterozygous:%s" % (self.name, msg)
        return "%s:%s" % (self.name, msg)


FULL_MENU_PS = ["hom", "homp", "het", "ph", "phx", "miss", "part", "partp"]
FULL_MENU_HP = ["hom", "homp", "het", "ph", "miss", "part", "partp"]


class Counts(_Base):
    name = "counts"
    required_cover = [
        "ALL row", "missing or partial genotype present", "singleton phase set", "phase set with >= 2 members", "unphased het",
        "non-SNV het", "homozygous call", "record dropped by --only-snvs", "chromosome skipped by --chromosome", "HP encoding", "phased call without PS value",
        "unrequested chromosome in front of the last requested one",
    ]

    def shapes(self, tier):
        out = []
        splits = [(1, 0), (2, 0), (3, 0), (1, 1), (2, 1)] if tier == "quick" else [(1, 0), (2, 0), (3, 0), (4, 0), (1, 1), (2, 1), (1, 2), (2, 2), (3, 1)]
        for n in splits:
            for tag in ("PS", "HP"):
                for dot in (False, True):
                    for only_snvs in (False, True):
                        sels = [None]
                        if n[1] > 0 and not only_snvs and not dot:
                            sels = [None, ["chr1"], ["chr2"], ["chr2,chr1"]]
                        for sel in sels:
                            if sum(n) >= 3 and (only_snvs or dot) and tier == "quick" and tag == "HP":
                                continue
                            if sum(n) >= 4 and only_snvs:
                                continue  # 4 records: all SNVs (the SNV/indel choice alone would multiply the ~10^5 paths per shape by 16)
                            menu = FULL_MENU_PS if tag == "PS" else FULL_MENU_HP
                            base = dict(n=list(n), tag=tag, dot=dot, only_snvs=only_snvs, chromosomes=sel, snv=sum(n) < 4, menu=menu)
                            if sum(n) >= 4:
                                out += [dict(base, cls0=c) for c in menu]
                            else:
                                out.append(base)
        # three chromosomes: a chromosome that was not asked for stands before / between / behind the requested ones
        for sel in (["chr2", "chr3"], ["chr2,chr3"], ["chr3"], ["chr1", "chr3"], ["chr3", "chr2"], ["chr1"]):
            out.append(dict(n=[1, 1, 1], tag="PS", dot=False, only_snvs=False, chromosomes=sel, snv=False, menu=["het", "ph", "hom"], three=True))
        return out

    def bounds(self, tier):
        sh = self.shapes(tier)
        return "%d shapes: <= %d records on <= 2 chromosomes, symbolic positions in [0,100000], every call class of %s per record, SNV/indel per record (<= 3 records; all SNVs for 4), PS and HP encodings, tag key omitted or '.', --only-snvs on/off, --chromosome in {none, chr1, chr2, 'chr2,chr1'}" % (len(sh), max(sum(s["n"]) for s in sh), FULL_MENU_PS)

    def cover_input(self, e, recs, shape):
        sets = {}
        for r in recs:
            if r["het"] and r["ph"] and (r["snv"] or not shape["only_snvs"]):
                sets.setdefault((r["chrom"], r["key"]), []).append(r)
            if r["het"] and not r["ph"]:
                e.cover("unphased het")
            if r["het"] and not r["snv"]:
                e.cover("non-SNV het")
            if r["cls"] in ("hom", "homp"):
                e.cover("homozygous call")
            if shape["only_snvs"] and not r["snv"]:
                e.cover("record dropped by --only-snvs")
            if r["cls"] == "phx":
                e.cover("phased call without PS value")
        for s in sets.values():
            e.cover("singleton phase set" if len(s) == 1 else "phase set with >= 2 members")
        if shape["chromosomes"] == ["chr2"]:
            e.cover("chromosome skipped by --chromosome")
        if shape.get("three") and shape["chromosomes"] in (["chr2", "chr3"], ["chr2,chr3"], ["chr3", "chr2"]):
            e.cover("unrequested chromosome in front of the last requested one")
        if shape["tag"] == "HP":
            e.cover("HP encoding")


class Samples(Counts):
    """Two-sample VCF: the second column holds solver-chosen calls of its own (other genotypes, other phase sets).  The
    report has to be about the sample --sample names (the first column without the option) and about that sample only."""

    name = "samples"
    required_cover = ["second sample reported", "first sample reported by default", "the two samples differ in what is phased", "ALL row", "phase set with >= 2 members"]
    OTHER = "s2"
    MENU_B = ["hom", "het", "ph"]

    def shapes(self, tier):
        out = []
        for n in ([(2, 0), (2, 1)] if tier == "quick" else [(2, 0), (3, 0), (2, 1), (2, 2)]):
            for tag in ("PS", "HP"):
                for which in ("default", "first", "second"):
                    out.append(dict(n=list(n), tag=tag, dot=False, only_snvs=False, chromosomes=None, snv=False, menu=["hom", "het", "ph"], which=which))
        return out

    def bounds(self, tier):
        sh = self.shapes(tier)
        return "%d shapes: two-sample VCF, <= %d records on <= 2 chromosomes, per record and sample a solver-chosen call class of %s with a solver-chosen phase-set id, PS and HP encodings; --sample absent / first sample / second sample" % (len(sh), max(sum(s["n"]) for s in sh), self.MENU_B)

    def build_input(self, e, shape):
        from vf.models.vcfread_model import RecordSpec, VcfContent

        tag = shape["tag"]
        which = shape["which"]
        self._sample_arg = {"default": None, "first": SAMPLE, "second": self.OTHER}[which]
        self._reported_sample = self.OTHER if which == "second" else SAMPLE
        e.cover("second sample reported" if which == "second" else "first sample reported by default" if which == "default" else "first sample named")
        cols = ([], [])
        specs = []
        for ci, cnt in enumerate(shape["n"]):
            chrom = CHROMS[ci]
            prev = None
            used = [0, 0]
            for k in range(cnt):
                nm = "%d.%d" % (ci, k)
                pos = e.int("pos" + nm, 0, 100000)
                if prev is not None:
                    e.assume(prev < pos)
                prev = pos
                texts = []
                for col in (0, 1):
                    cls = e.choice("cls%s%s" % ("AB"[col], nm), self.MENU_B)
                    j = None
                    if cls in NEEDS_ID:
                        j = e.choice("id%s%s" % ("AB"[col], nm), range(min(used[col] + 1, 2)))
                        used[col] = max(used[col], j + 1)
                    is_het, is_ph, is_none = CLASSES[cls]
                    idv = (ID_VALUES[j] + 100 * col) if j is not None else None  # the two samples never share a phase-set id
                    cols[col].append(dict(chrom=chrom, pos=pos, snv=True, cls=cls, het=is_het, ph=is_ph, none=is_none, key=("id", idv) if is_ph else None))
                    if tag == "PS":
                        gt = {"hom": "0/0", "het": "0/1", "ph": "0|1"}[cls]
                        extra = [("PS", str(idv))] if idv is not None else []
                    else:
                        gt = {"hom": "0/0", "het": "0/1", "ph": "0/1"}[cls]
                        extra = [("HP", "%d-1,%d-2" % (idv, idv))] if idv is not None else []
                    texts.append((gt, extra))
                specs.append(RecordSpec(chrom, pos, "A", "C", texts[0][0], texts[0][1], more=[texts[1]]))
        if [(r["cls"], r["key"]) for r in cols[0]] != [(r["cls"], r["key"] and ("id", r["key"][1] - 100)) for r in cols[1]]:
            e.cover("the two samples differ in what is phased")
        content = VcfContent(SAMPLE, [(c, None) for c in CHROMS], specs, more_samples=[self.OTHER])
        return cols[1] if which == "second" else cols[0], content

    def cover_input(self, e, recs, shape):
        sets = {}
        for r in recs:
            if r["het"] and r["ph"]:
                sets.setdefault((r["chrom"], r["key"]), []).append(r)
        if any(len(v) >= 2 for v in sets.values()):
            e.cover("phase set with >= 2 members")


class Blocks(_Base):
    name = "blocks"
    required_cover = ["ALL row", "interleaved phase sets", "nested phase sets", "three phase sets on one chromosome", "phase set split into two pieces", "NG50 computed"]

    def shapes(self, tier):
        # 6 records on one chromosome are the smallest input on which a phase set is cut into two pieces of >= 2 variants
        splits = [(4, 0), (5, 0), (6, 0), (2, 2), (3, 2)] if tier == "quick" else [(4, 0), (5, 0), (6, 0), (7, 0), (2, 2), (3, 2), (4, 2), (3, 3)]
        out = []
        for n in splits:
            for tag in ("PS", "HP"):
                if tag == "HP" and sum(n) > 5:
                    continue
                out.append(dict(n=list(n), tag=tag, dot=False, only_snvs=False, chromosomes=None, snv=False, menu=["het", "ph"]))
        for n in [(4, 0), (2, 2)]:
            out.append(dict(n=list(n), tag="PS", dot=False, only_snvs=False, chromosomes=None, snv=False, menu=["het", "ph"], lengths=True))
        return out

    def bounds(self, tier):
        sh = self.shapes(tier)
        return "%d shapes: <= %d heterozygous SNV records on <= 2 chromosomes, symbolic positions in [0,100000], each record unphased or member of one of <= 3 phase sets (all interleavings / nestings), PS and HP encodings; two shapes with contig lengths (NG50 compared between symbolic and real run only)" % (len(sh), max(sum(s["n"]) for s in sh))

    def cover_input(self, e, recs, shape):
        for c in CHROMS:
            seq = [r["key"] for r in recs if r["chrom"] == c and r["key"] is not None]
            keys = sorted(set(seq), key=str)
            if len(keys) >= 3:
                e.cover("three phase sets on one chromosome")
            for a in keys:
                for b in keys:
                    if a == b:
                        continue
                    ia = [i for i, k in enumerate(seq) if k == a]
                    ib = [i for i, k in enumerate(seq) if k == b]
                    if len(ia) < 2 or len(ib) < 2:
                        continue
                    if ia[0] < ib[0] and ib[-1] < ia[-1]:
                        e.cover("nested phase sets")
                        if any(i > ib[-1] for i in ia[1:]) and sum(1 for i in ia if i < ib[0]) >= 2 and sum(1 for i in ia if i > ib[-1]) >= 2:
                            e.cover("phase set split into two pieces")
                    if ia[0] < ib[0] < ia[-1] < ib[-1]:
                        e.cover("interleaved phase sets")


SUBCHECKS = {c.name: c for c in [Counts(), Blocks(), Samples()]}

if __name__ == "__main__":
    import sys
    from vf import runner

    sys.exit(runner.main("checks.c12", sys.argv[1:]))
