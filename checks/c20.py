"""C20 - auxiliary reports (read list, changed-genotype list, recombination list) cover
the whole run and agree with what the run produced.

run_whatshap itself is executed (PySym, re-read from the working tree) with its
environment replaced by stubs: the VCF reader yields solver-chosen variant tables,
the phased-input reader yields solver-chosen read sets, the exact solver is a
contract stub returning arbitrary super reads / partition / transmission vector, the
VCF writer returns a solver-chosen list of genotype changes, `open` is an in-memory
file system.  The replay runs the REAL whatshap.cli.phase.run_whatshap with the same
stubs patched in and real files in a scratch directory.
"""
import io
import os
import shutil
import sys
import tempfile
import types

from vf.runner import SubCheck
from vf.pysym.loader import SymWorld

PROPERTY = "C20"

POS = [0, 200, 300, 400, 500]  # the first variant sits on the first base of the contig (VCF POS 1): its 0-based position / component id is 0


class MemFS:
    def __init__(self):
        self.files = {}
        self.opens = []

    def open(self, path, mode="r", *a, **k):
        path = str(path)
        self.opens.append((path, mode))
        fs = self

        class F(io.StringIO):
            def close(self2):
                if "w" in mode or "a" in mode:
                    fs.files[path] = self2.getvalue()
                super().close()

            def __exit__(self2, *x):
                self2.close()

        if "r" in mode and "+" not in mode:
            if path not in self.files:
                raise FileNotFoundError(path)
            return io.StringIO(self.files[path])
        if "a" in mode:
            f = F()
            f.write(self.files.get(path, ""))
            return f
        self.files[path] = ""
        return F()

    def read(self, path):
        return self.files.get(path)


class DiskFS:
    def __init__(self, root):
        self.root = root

    def path(self, p):
        return os.path.join(self.root, p)

    def read(self, p):
        try:
            return open(self.path(p)).read()
        except OSError:
            return None


class Scenario:
    """what the stubs return, fixed per path by solver-chosen structure"""

    def __init__(self, e, shape):
        self.e = e
        self.shape = shape
        self.chromosomes = ["chrA", "chrB"][: shape["nchrom"]]
        fam = shape["families"]  # "single", "trio", "trio+single", "two singles"
        # quartet: two children of the same parents; the VCF lists child d BEFORE child c, the PED file c before d
        self.samples = {"single": ["s1"], "trio": ["f", "m", "c"], "trio+single": ["f", "m", "c", "s1"], "two singles": ["s1", "s2"], "quartet": ["f", "m", "d", "c"]}[fam]
        self.ped = "ped.txt" if ("trio" in fam or fam == "quartet") else None
        self.rel_order = {}  # (chromosome, family) -> children in the order create_pedigree added their relationships
        self.distrust = shape["distrust"]
        self.calls = []  # (chromosome, family) in processing order
        self.handed = {}  # (chromosome, family tuple) -> reads handed to the solver
        self.events_expected = []
        self.tv = {}
        self.changes = {}
        self.part = {}


def build_world(core_mod):
    """symbolic world for whatshap.cli.phase with model core"""
    w = SymWorld(overrides={"whatshap.core": core_mod})
    return w


def make_core(base, stubs):
    m = types.ModuleType("core_with_stubs")
    for k in dir(base):
        if not k.startswith("__"):
            setattr(m, k, getattr(base, k))
    for k, v in stubs.items():
        setattr(m, k, v)
    return m


class AuxReports(SubCheck):
    name = "aux"
    encoded = ["whatshap.cli.phase.run_whatshap", "ReadList", "write_changed_genotypes", "write_recombination_list", "find_components", "compute_overall_components", "find_phaseable_variants", "find_mendelian_conflicts", "setup_families", "setup_pedigree", "merge_readsets", "create_pedigree", "whatshap.pedigree.find_recombination / PedReader / UniformRecombinationCostComputer", "whatshap.vcf.VariantTable"]
    sources = ["whatshap/cli/phase.py", "whatshap/pedigree.py", "whatshap/vcf.py", "whatshap/graph.py", "whatshap/merge.py"]
    stubs = ["VcfReader (yields VariantTables built by the harness)", "PhasedInputReader.read (returns harness-chosen read sets)", "readselection (identity)", "PedigreeDPTable (contract stub: arbitrary super reads, partition, transmission vector)", "PhasedVcfWriter (records calls, returns a harness-chosen list of GenotypeChange when genotypes are distrusted, none otherwise - C04/C01 justify that)", "open (in-memory file system in the symbolic run, scratch directory in the replay)", "whatshap.core data classes: vf/models/core_model.py in the symbolic run, the compiled module in the replay"]
    assumptions = ["the VCF writer reports exactly the genotype differences it made (C04) and none without --distrust-genotypes (C01/C05: trusted mode only permutes alleles)"]
    required_cover = ["two chromosomes", "two families", "recombination event produced", "genotype change produced", "read list requested", "phase set nested inside another one", "read attributed to the phase set its first variant has in the VCF", "phase set starting on the first base of the contig",
                      "two children in one family", "recombination in one of two children"]
    hash_mode = "concretise"

    def shapes(self, tier):
        out = []
        fams = ["single", "trio", "trio+single"] if tier == "quick" else ["single", "two singles", "trio", "trio+single"]
        # (chromosome, family) steps multiply the solver-chosen patterns: 2 chromosomes x (trio + single) is the largest shape
        for nchrom in (1, 2):
            for fam in fams:
                for distrust in (False, True):
                    out.append(dict(nchrom=nchrom, families=fam, distrust=distrust, nvar=3 if tier == "quick" else 4))
        # five variants: room for a two-variant phase set nested inside the family's block (a recombination next to it must not be attributed to it)
        out.append(dict(nchrom=1, families="trio", distrust=False, nvar=5))
        out.append(dict(nchrom=1, families="quartet", distrust=False, nvar=3))
        if tier != "quick":
            out.append(dict(nchrom=2, families="trio+single", distrust=True, nvar=5))
        return out

    def bounds(self, tier):
        return "1-2 chromosomes x {single sample, trio, trio + unrelated single%s} x distrust on/off, %d variants per chromosome; per (chromosome, family): solver-chosen read incidence (2-4 patterns per sample group, with five variants including one that makes two variants a phase set of their own nested inside the other one), transmission vector pattern (constant / one change / two changes), partition bits, genotype-change subset; all three list options requested" % ("" if tier == "quick" else ", two singles", 3 if tier == "quick" else 4) + " (plus one single-chromosome trio shape with 5 variants%s)" % ("" if tier == "quick" else " and one 2-chromosome trio+single shape with 5 variants")

    def setup(self):
        from vf.models import core_model

        self.core_model = core_model
        from vf import build

        from vf.models import vcfdoc

        vcfdoc.ensure_real()  # core, align, _variants rebuilt from the working tree - the same set the `run` sub-check of this module loads in the same worker
        import whatshap.cli.phase as real_phase
        import whatshap.core as real_core
        import whatshap.vcf as real_vcf
        import whatshap.pedigree as real_ped

        self.real = dict(phase=real_phase, core=real_core, vcf=real_vcf, ped=real_ped)

    def sym_impl(self):
        return "sym"

    def real_impl(self):
        return "real"

    # ------------------------------------------------------------------ harness
    def harness(self, e, shape, impl):
        sc = Scenario(e, shape)
        nvar = shape["nvar"]
        positions = POS[:nvar]
        if impl == "sym":
            fs = MemFS()
            core = self.core_model
            stub_core = make_core(core, {})
            climod = types.ModuleType("whatshap.cli")
            climod.__path__ = []

            class CommandLineError(Exception):
                pass

            climod.CommandLineError = CommandLineError
            climod.log_memory_usage = lambda *a, **k: None
            climod.PhasedInputReader = None
            if not hasattr(self, "_world"):
                world = SymWorld(overrides={"whatshap.core": stub_core, "whatshap.cli": climod, "whatshap.readselect": types.SimpleNamespace(readselection=lambda rs, cov, preferred_source_ids=None, bridging=True: set(range(len(rs))))})
                self._world = (world.load("whatshap.cli.phase"), world.load("whatshap.vcf"), world.load("whatshap.pedigree"))
            phase, vcf, pedmod = self._world
            phase.__dict__["__builtins__"]["open"] = fs.open
            pedmod.__dict__["__builtins__"]["open"] = fs.open
            tmpdir = None
            pth = lambda p: p
        else:
            phase, vcf, pedmod, core = self.real["phase"], self.real["vcf"], self.real["ped"], self.real["core"]
            tmpdir = tempfile.mkdtemp(prefix="c20-", dir="/var/tmp")
            fs = DiskFS(tmpdir)
            pth = fs.path
        saved = {}
        try:
            # ---- input side: variant tables -------------------------------------------
            Genotype = core.Genotype
            tables = []
            for chrom in sc.chromosomes:
                vt = vcf.VariantTable(chrom, sc.samples)
                for p in positions:
                    gts = []
                    for s in sc.samples:
                        # family members heterozygous (phasable everywhere); one solver-chosen homozygous parent call keeps the genetic-haplotyping path alive
                        gts.append(Genotype([0, 1]))
                    vt.add_variant(vcf.BiallelicVcfVariant(p, "A", "C"), gts, [None] * len(sc.samples), [None] * len(sc.samples), [None] * len(sc.samples))
                tables.append(vt)
            if sc.ped:
                ped_text = "fam1 c f m 0 1\n" + ("fam1 d f m 0 1\n" if shape["families"] == "quartet" else "")
                if impl == "sym":
                    fs.files["ped.txt"] = ped_text
                else:
                    open(pth("ped.txt"), "w").write(ped_text)

            class VcfReaderStub:
                def __init__(self2, *a, **k):
                    self2.samples = list(sc.samples)

                def __enter__(self2):
                    return self2

                def __exit__(self2, *a):
                    return None

                def __iter__(self2):
                    return iter(tables)

            class WriterStub:
                def __init__(self2, *a, **k):
                    self2.calls = []

                def __enter__(self2):
                    return self2

                def __exit__(self2, *a):
                    return None

                def write(self2, chromosome, superreads, components):
                    # what the real writer turns into PS/HP values: component (0-based leftmost position) + 1 per phased variant
                    sc.written_components = getattr(sc, "written_components", {})
                    sc.written_components.setdefault(chromosome, {}).update({s: dict(c) for s, c in components.items()})
                    changes = []
                    if sc.distrust:
                        vt = [t for t in tables if t.chromosome == chromosome][0]
                        for s in sorted(superreads)[:1]:
                            if e.bit("chg_%s" % chromosome):
                                changes.append(vcf.GenotypeChange(s, chromosome, vt.variants[0], Genotype([0, 1]), Genotype([1, 1])))
                    sc.changes[chromosome] = changes
                    return changes

            nsid = {}

            class InputReaderStub:
                has_vcfs = False
                has_alignments = False

                def __init__(self2, paths, ref, numeric_sample_ids, *a, **k):
                    self2.nsi = numeric_sample_ids

                def __enter__(self2):
                    return self2

                def __exit__(self2, *a):
                    return None

                def read_vcfs(self2):
                    pass

                def read(self2, chromosome, variants, sample):
                    rs = core.ReadSet()
                    # one solver-chosen pattern per chromosome for the family members, an own one for the unrelated single
                    grp = "fam" if sample in ("f", "m", "c", "d") else sample
                    pos = [v.position for v in variants]
                    pats = ["all", "split"] if grp == "fam" else ["all", "split", "none"]
                    if len(pos) >= 5:
                        # two variants linked only to each other: a phase set of its own nested inside the other one
                        pats = pats + ["nested"]
                    pat = e.choice("reads_%s_%s" % (chromosome, grp), pats)
                    spans = {"all": [pos], "split": [pos[:2], pos[1:]] if len(pos) >= 3 else [pos], "none": [], "nested": [pos[:-3] + pos[-1:], pos[-3:-1]]}[pat]
                    if pat == "nested":
                        e.cover("phase set nested inside another one")
                    for k, sp in enumerate(spans):
                        if len(sp) < 2:
                            continue
                        r = core.Read("%s_%s_r%d" % (chromosome, sample, k), 50, 0, self2.nsi[sample])
                        for p in sp:
                            r.add_variant(p, 0, 10)
                        rs.add(r)
                    return rs, set()

            class DPStub:
                def __init__(self2, all_reads, recomb, pedigree, distrust, positions):
                    self2.reads = all_reads
                    self2.positions = list(positions)
                    self2.ped = pedigree
                    fam = tuple(pedigree.samples)
                    key = (sc.cur_chrom(), fam)
                    sc.calls.append(key)
                    sc.handed[key] = [(r.name, r.sample_id, [v.position for v in r]) for r in all_reads]
                    sc.accessible = getattr(sc, "accessible", {})
                    sc.accessible[key] = list(positions)

                def get_super_reads(self2):
                    out = []
                    for s in self2.ped.samples:
                        rs = core.ReadSet()
                        for h in (0, 1):
                            r = core.Read("superread_%d_%s" % (h, s), -1, -1, self2.ped.nsi[s])
                            for p in self2.positions:
                                r.add_variant(p, h, 0)
                            rs.add(r)
                        out.append(rs)
                    n = len(self2.positions)
                    if len(self2.ped.trios) == 2:
                        # quartet: the solver's transmission value holds two bits per relationship IN THE ORDER THEY WERE ADDED
                        # (C05 ped_parts); only one child recombines, at the last position
                        sc.rel_order[(sc.cur_chrom(), tuple(self2.ped.samples))] = [t[2] for t in self2.ped.trios]
                        k = e.choice("recombining_relationship_%s" % sc.cur_chrom(), [None, 0, 1])
                        tv = [0] * n if (k is None or n == 0) else [0] * (n - 1) + [1 << (2 * k)]
                    elif self2.ped.trios:
                        pat = e.choice("tv_%s" % sc.cur_chrom(), ["const", "one", "two"])
                        tv = {"const": [0] * n, "one": [0] * (n - 1) + [1] if n else [], "two": ([0] * (n - 2) + [2, 1]) if n >= 2 else [0] * n}[pat]
                    else:
                        tv = [0] * n
                    key = (sc.cur_chrom(), tuple(self2.ped.samples))
                    sc.tv[key] = tv
                    return out, tv

                def get_optimal_cost(self2):
                    return 0

                def get_optimal_partitioning(self2):
                    key = (sc.cur_chrom(), tuple(self2.ped.samples))
                    flip = len(sc.calls) % 2
                    # a function of the read *name* (the order of reads with equal start differs between model and compiled ReadSet)
                    part = [(sum(map(ord, r.name)) + flip) % 2 for r in self2.reads]
                    sc.part[key] = part
                    return part

            class PedStub:
                def __init__(self2, nsi):
                    self2.nsi = nsi
                    self2.samples = []
                    self2.trios = []

                def add_individual(self2, sample, gts, gls=None):
                    self2.samples.append(sample)

                def add_relationship(self2, father_id, mother_id, child_id):
                    self2.trios.append((father_id, mother_id, child_id))

            cur = {"chrom": None}
            sc.cur_chrom = lambda: cur["chrom"]
            # track the chromosome being processed through the table iteration
            real_iter = VcfReaderStub.__iter__

            def it(self2):
                for t in tables:
                    cur["chrom"] = t.chromosome
                    yield t

            VcfReaderStub.__iter__ = it
            patches = dict(VcfReader=VcfReaderStub, PhasedVcfWriter=WriterStub, PhasedInputReader=InputReaderStub, PedigreeDPTable=DPStub, Pedigree=PedStub)
            if impl == "real":
                patches["readselection"] = lambda rs, cov, preferred_source_ids=None, bridging=True: set(range(len(rs)))
            for k, v in patches.items():
                saved[k] = phase.__dict__.get(k)
                phase.__dict__[k] = v
            try:
                phase.run_whatshap(
                    phase_input_files=[],
                    variant_file="in.vcf",
                    output=io.StringIO(),
                    ped=pth(sc.ped) if sc.ped else None,
                    distrust_genotypes=sc.distrust,
                    read_list_filename=pth("reads.tsv"),
                    gtchange_list_filename=pth("gtchanges.tsv"),
                    recombination_list_filename=pth("recomb.tsv") if sc.ped else None,
                    write_command_line_header=False,
                )
            finally:
                for k, v in saved.items():
                    if v is None:
                        phase.__dict__.pop(k, None)
                    else:
                        phase.__dict__[k] = v
            reads_txt = fs.read("reads.tsv")
            gt_txt = fs.read("gtchanges.tsv")
            rec_txt = fs.read("recomb.tsv")
        finally:
            if tmpdir:
                shutil.rmtree(tmpdir, ignore_errors=True)
        # reads with equal first position are ordered by a name *hash* in the compiled ReadSet (by name in the model):
        # the list is compared as a multiset of lines
        e.out("reads", sorted((reads_txt or "").splitlines()))
        e.out("gtchanges", gt_txt)
        e.out("recomb", rec_txt)
        self.judge(e, sc, shape, reads_txt, gt_txt, rec_txt)

    # ------------------------------------------------------------------ oracle
    def judge(self, e, sc, shape, reads_txt, gt_txt, rec_txt):
        if len(sc.chromosomes) == 2:
            e.cover("two chromosomes")
        nfam = len({fam for _, fam in sc.calls})
        if nfam >= 2:
            e.cover("two families")
        e.cover("read list requested")
        info = lambda: dict(calls=[list(map(str, c)) for c in sc.calls], reads=reads_txt, gtchanges=gt_txt, recomb=rec_txt)
        # ---- read list: every read handed to the solver in any step is listed (coverage), every line names such a read
        lines = [l.split("\t") for l in (reads_txt or "").splitlines() if l and not l.startswith("#")]
        listed = {(l[0], l[2]) for l in lines}
        handed_all = set()
        for key, reads in sc.handed.items():
            for name, sid, pos in reads:
                handed_all.add(name)
        for key, reads in sc.handed.items():
            for name, sid, pos in reads:
                e.check(any(l[0] == name for l in lines), "read list misses a read that was used for phasing (step %s %s)" % (key[0], ",".join(key[1])), info)
        for l in lines:
            e.check(l[0] in handed_all, "read list names a read that was not handed to the solver", info)
            # phase set = component of its first variant + 1 ; here every handed read starts at a listed position
            e.check(int(l[6]) - 1 in POS and int(l[3]) - 1 <= int(l[6]) - 1, "read list phase set is not the component (leftmost position) of the read's first variant", info)
            # ... and it is the phase set the output VCF gives that variant for the read's sample (the components handed to the writer)
            chrom = l[0].split("_")[0]
            comp = getattr(sc, "written_components", {}).get(chrom, {}).get(l[2], {})
            first = int(l[6]) - 1
            if first in comp:
                e.cover("read attributed to the phase set its first variant has in the VCF")
                if comp[first] == 0:
                    e.cover("phase set starting on the first base of the contig")
                e.check(int(l[3]) == comp[first] + 1, "read list attributes a read to another phase set than the one its first variant has in the output VCF", lambda: dict(info(), line=l, vcf_phase_set=comp[first] + 1))
        # ---- changed genotypes: entries of every chromosome present; none without distrust
        glines = [l.split("\t") for l in (gt_txt or "").splitlines() if l and not l.startswith("#")]
        nchg = 0
        for chrom, changes in sc.changes.items():
            for c in changes:
                nchg += 1
                e.cover("genotype change produced")
                e.check(any(g[0] == c.sample and g[1] == chrom and int(g[2]) == c.variant.position for g in glines), "changed-genotype list misses a change made on %s (only the last chromosome's changes survive?)" % chrom, info)
        for g in glines:
            e.check(any(c.sample == g[0] and chrom == g[1] and c.variant.position == int(g[2]) for chrom, cs in sc.changes.items() for c in cs), "changed-genotype list has an entry that is not a genotype change of the run", info)
        if not sc.distrust:
            e.check(not glines, "genotype changes listed although genotypes were trusted", info)
        # ---- recombination list
        if sc.ped:
            rlines = [l.split() for l in (rec_txt or "").splitlines() if l and not l.startswith("#")]
            for key, tv in sc.tv.items():
                chrom, fam = key
                if "c" not in fam:
                    continue
                acc = sc.accessible[key]
                # the stub's reads decide the components; events are changes of the transmission value at index >= 2 inside one component
                comp = self.components(sc.handed[key], acc, fam)
                if key in sc.rel_order:
                    # two children: an event belongs to the child whose relationship's bits changed ("reported transmission" of C05)
                    e.cover("two children in one family")
                    for i in range(2, len(acc)):
                        blk = [p for p in acc if comp[p] == comp[acc[i]]]
                        if not (comp[acc[i - 1]] == comp[acc[i]] and blk.index(acc[i]) >= 2):
                            continue
                        for k, child in enumerate(sc.rel_order[key]):
                            changed = ((tv[i - 1] >> (2 * k)) & 3) != ((tv[i] >> (2 * k)) & 3)
                            listed = any(r[0] == child and r[1] == chrom and int(r[2]) == acc[i - 1] + 1 and int(r[3]) == acc[i] + 1 for r in rlines)
                            if changed:
                                e.cover("recombination in one of two children")
                            e.check(listed == changed, "recombination list attributes an event to the wrong child (the solver's transmission bits follow the order in which the relationships were added)",
                                    lambda: dict(info(), child=child, relationships_added_in_order=sc.rel_order[key], transmission_vector=tv))
                for i in range(2, len(acc)):
                    blk = [p for p in acc if comp[p] == comp[acc[i]]]
                    if comp[acc[i - 1]] == comp[acc[i]] and blk.index(acc[i]) >= 2 and tv[i - 1] != tv[i]:
                        e.cover("recombination event produced")
                        e.check(any(r[1] == chrom and int(r[2]) == acc[i - 1] + 1 and int(r[3]) == acc[i] + 1 for r in rlines), "recombination list misses an event of chromosome %s (only the last processed chromosome/family survives?)" % chrom, info)
            for r in rlines:
                chrom, p1, p2 = r[1], int(r[2]) - 1, int(r[3]) - 1  # the list is 1-based
                ok = False
                for key, tv in sc.tv.items():
                    if key[0] == chrom and "c" in key[1]:
                        comp = self.components(sc.handed[key], sc.accessible[key], key[1])
                        if p1 in comp and p2 in comp and comp[p1] == comp[p2]:
                            ok = True
                e.check(ok, "recombination list entry does not lie between two variants of one phase set", info)

    @staticmethod
    def components(handed, acc, fam):
        comp = {p: p for p in acc}

        def find(x):
            while comp[x] != x:
                x = comp[x]
            return x

        for name, sid, pos in handed:
            pos = [p for p in pos if p in comp]
            for p in pos[1:]:
                a, b = find(pos[0]), find(p)
                if a != b:
                    comp[max(a, b)] = min(a, b)
        return {p: find(p) for p in acc}

    def classify(self, shape, v):
        m = v["msg"]
        if "changed-genotype list misses" in m:
            return "aux:gtchange-list-incomplete:nchrom=%d" % shape["nchrom"]
        if "recombination list misses" in m:
            return "aux:recombination-list-incomplete:nchrom=%d:families=%s" % (shape["nchrom"], shape["families"])
        return "aux:%s" % m


SUBCHECKS = {c.name: c for c in [AuxReports()]}


# =====================================================================================================================
# run: the changed-genotype list against the REAL writer's output (run_whatshap as a whole), see checks/phase_run.py
# =====================================================================================================================
from checks import phase_run as _pr


class Run(_pr.PhaseRun):
    """C20, changed-genotype clause, with the real PhasedVcfWriter: each listed change is exactly a GT difference between the
    input and the output VCF (same sample, chromosome, position; old and new genotype as in the files), every difference is
    listed, and without --distrust-genotypes there is none."""

    def filter_shapes(self, shapes):
        return [s for s in shapes if not s.get("ped") and (s["old"] is None or s["distrust"])]

    def judge(self, e, sc, shape, out, lists, info):
        txt = lists.get("gtchanges.tsv")
        e.check(txt is not None, "changed-genotype list was not written", info)
        lines = [l.split("\t") for l in txt.splitlines() if l and not l.startswith("#")]
        diffs = {}
        for ri, ro in zip(sc.doc["records"], out["records"]):
            for si, s in enumerate(_pr.SAMPLES):
                a, b = sorted(ri["calls"][si]["GT"]), sorted(ro["calls"][si]["GT"])
                if a != b:
                    diffs[(s, ri["chrom"], ri["pos"])] = (a, b)
        if diffs:
            e.cover("genotype changed in the output VCF")
            if any(len(set(b)) == 1 for a, b in diffs.values()):
                e.cover("genotype changed to homozygous")
        if not sc.distrust:
            e.check(not lines and not diffs, "genotype changes (listed or made) although genotypes were trusted", info)
        listed = set()
        for l in lines:
            keys = [k for k in diffs if k[0] == l[0] and k[1] == l[1] and int(l[2]) in (k[2] - 1, k[2])]
            e.check(len(keys) == 1, "the changed-genotype list has an entry that is not a GT difference between input and output VCF", lambda: dict(info(), line=l, differences=sorted(map(str, diffs))))
            listed.add(keys[0])
        for k in diffs:
            e.check(k in listed, "a GT difference between input and output VCF is missing from the changed-genotype list", lambda: dict(info(), difference=str(k)))


Run.required_cover = _pr.PhaseRun.required_cover + ["genotype changed in the output VCF", "genotype changed to homozygous"]
SUBCHECKS["run"] = Run()
