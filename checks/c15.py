"""C15 - polyphase output obeys the input genotypes and forms contiguous blocks.

Claimed stages (executed symbolically from the working tree, replayed on the real modules):
  force      polyphase.threading.force_genotypes - after forcing, every position without an
             undetermined allele (-1) carries exactly the genotype's allele multiset.
             binom.pmf / math.log are stubs returning ARBITRARY values: per permutation the
             log-likelihood total is an arbitrary extended real (-inf when the probability is 0).
  underflow  the same function with the REAL scipy binom / math.log on one concrete family
             (cluster depth 10 vs 1100): shows that the all-probabilities-zero case found by
             `force` is reachable with real floating point (binom.pmf underflows to 0.0).
  cuts       polyphase.algorithm.aggregate_results + compute_cut_positions and the whole of
             cli.polyphase.phase_single_individual (cut -> component translation, super-reads),
             with solve_polyphase_instance replaced by "aggregate_results of arbitrary block
             results of the right shape": phase sets are disjoint intervals of consecutive
             read-covered positions, each named by its first position; the super-reads carry the
             haplotype alleles at exactly the positions without -1.

NOT APPLICABLE (replaced by "arbitrary output of the right shape", which is what the claimed
stages must tolerate): cluster editing (ClusterEditingSolver), scoreReadset, HaploThreader /
compute_threading_path, reorder.run_reordering and its ILP - C++/PuLP heuristics scored with
doubles.  The VCF writer stage (PhasedVcfWriter with multi-allelic records: "only heterozygous
variants are phased, the rest is passed through") is the writer of C04 and is not repeated here.
"""
import sys

from vf.runner import SubCheck
from vf.pysym.loader import SymWorld
from vf.pysym.engine import Unsupported

PROPERTY = "C15"
NEG_INF = -float("inf")


class XR:
    """Extended real: a finite value (SymReal / Fraction / float) or -inf (v is None).
    Only what force_genotypes does with a log-likelihood: add, compare."""

    __slots__ = ("v",)

    def __init__(self, v):
        self.v = v

    @staticmethod
    def _lift(o):
        if isinstance(o, XR):
            return o.v
        if isinstance(o, float):
            if o == NEG_INF:
                return None
            if o != o or o == float("inf"):
                raise Unsupported("+inf / nan in a log-likelihood")
        return o

    def __add__(self, o):
        b = XR._lift(o)
        if self.v is None or b is None:
            return XR(None)
        return XR(self.v + b)

    __radd__ = __add__

    def _cmp(self, o, op, self_inf, other_inf, both_inf):
        b = XR._lift(o)
        if self.v is None and b is None:
            return both_inf
        if self.v is None:
            return self_inf
        if b is None:
            return other_inf
        return op(self.v, b)

    def __gt__(self, o):
        return self._cmp(o, lambda a, b: a > b, False, True, False)

    def __ge__(self, o):
        return self._cmp(o, lambda a, b: a >= b, False, True, True)

    def __lt__(self, o):
        return self._cmp(o, lambda a, b: a < b, True, False, False)

    def __le__(self, o):
        return self._cmp(o, lambda a, b: a <= b, True, False, True)


class LikStub:
    """binom.pmf / log of threading.py.  force_genotypes evaluates, per candidate permutation,
    sum over (cluster, allele) of log(pmf(...)).  The first pmf call of a permutation returns an
    arbitrary probability in [0,1] and its log an arbitrary real; the remaining calls of the
    same permutation return 1 / 0.  The per-permutation total is then an arbitrary extended
    real, which is all the caller can observe.  A permutation starts when the (depth, total)
    key of the first call at that position comes round again (the harness makes total depths
    distinct per position and cluster, observed depths distinct per allele)."""

    def __init__(self, e):
        self.e = e
        self.first_key = {}
        self.perm = {}
        self.probs = {}  # pos -> list of first-call probabilities
        self.pending = None

    def pmf(self, observed, total, p):
        pos = total // 1000
        key = (observed, total)
        if pos not in self.first_key:
            self.first_key[pos] = key
        if self.first_key[pos] != key:
            self.pending = None
            return 1
        k = self.perm.get(pos, 0)
        self.perm[pos] = k + 1
        prob = self.e.real("pmf.%d.%d" % (pos, k), 0, 1)
        self.probs.setdefault(pos, []).append(prob)
        self.pending = "log.%d.%d" % (pos, k)
        return prob

    def log(self, x):
        if self.pending is None:
            if x == 1:
                return 0.0
            raise Unsupported("log() of an unexpected value")
        name, self.pending = self.pending, None
        return XR(self.e.real(name, -64, 64))


class _Impl:
    def __init__(self, threading, algorithm, cli, polyphase, core):
        self.threading = threading
        self.algorithm = algorithm
        self.cli = cli
        self.polyphase = polyphase
        self.core = core
        self.real_binom = threading.binom
        self.real_log = threading.log
        self.real_solve = cli.solve_polyphase_instance
        self.real_am = cli.AlleleMatrix

    def stub_likelihoods(self, stub):
        if stub is None:
            self.threading.binom, self.threading.log = self.real_binom, self.real_log
        else:
            self.threading.binom, self.threading.log = stub, stub.log


class _Base(SubCheck):
    sources = ["whatshap/polyphase/threading.py", "whatshap/polyphase/algorithm.py", "whatshap/polyphase/__init__.py", "whatshap/cli/polyphase.py"]

    def setup(self):
        from vf import build
        from vf.models import core_model

        build.prepare_repo()
        import whatshap.align, whatshap._variants, whatshap.readselect, whatshap.priorityqueue, whatshap.polyphase.solver  # noqa: E401  (imported by the packages, never called here)
        import whatshap.polyphase.threading as r_thr
        import whatshap.polyphase.algorithm as r_alg
        import whatshap.cli.polyphase as r_cli
        import whatshap.polyphase as r_pp
        import whatshap.core as r_core

        ov = {"whatshap.core": core_model, "whatshap.polyphase.solver": sys.modules["whatshap.polyphase.solver"]}
        for n in ("align", "_variants", "readselect", "priorityqueue"):
            ov["whatshap." + n] = sys.modules["whatshap." + n]
        w = SymWorld(overrides=ov)
        self._sym = _Impl(w.load("whatshap.polyphase.threading"), w.load("whatshap.polyphase.algorithm"), w.load("whatshap.cli.polyphase"), w.load("whatshap.polyphase"), core_model)
        self._real = _Impl(r_thr, r_alg, r_cli, r_pp, r_core)

    def sym_impl(self):
        return self._sym

    def real_impl(self):
        return self._real


def _check_forced(e, A, K, N, before, result, genos, ctx_extra):
    for pos in range(N):
        col0 = [before[p][pos] for p in range(K)]
        col = [result[p][pos] for p in range(K)]
        e.out("column%d" % pos, col)
        ctx = lambda: dict(ctx_extra(pos), position=pos, before=col0, after=col, genotype=e.value(genos[pos]))
        if -1 in col0:
            e.cover("position with an undetermined allele")
            continue  # the statement speaks about positions without -1 only
        for a in sorted(set(range(A)) | set(col) | set(genos[pos])):
            want = genos[pos].get(a, 0)
            e.check(col.count(a) == want, "after forcing, an allele's multiplicity differs from the genotype", ctx)
        if sorted(col0) != sorted(col):
            e.cover("genotype had to be forced")
        else:
            e.cover("threaded alleles already matched the genotype")


class Force(_Base):
    name = "force"
    encoded = ["whatshap.polyphase.threading.force_genotypes"]
    assumptions = [
        "genotype multiplicities are >= 1 for the listed alleles and sum to the ploidy (create_genotype_list)",
        "threaded alleles are -1 or allele indices; every haplotype has an entry for every position; path[pos] lists one cluster per haplotype",
    ]
    stubs = [
        "scipy.stats.binom.pmf and math.log inside threading.py -> arbitrary values (symbolic reals; per permutation an arbitrary extended-real total), on the symbolic side and in the replay",
    ]
    required_cover = ["genotype had to be forced", "threaded alleles already matched the genotype", "position with an undetermined allele", "a permutation with probability zero", "two permutations compared on finite likelihoods", "allele of the genotype absent from the threading", "threaded allele absent from the genotype"]
    max_decisions = 20000

    def shapes(self, tier):
        if tier == "quick":
            base = [(2, 2, 1), (2, 3, 1), (3, 2, 1), (2, 2, 2)]
        else:
            base = [(2, 2, 1), (2, 3, 1), (3, 2, 1), (2, 2, 2), (3, 3, 1), (4, 2, 1)]
        out = []
        for K, A, N in base:
            if K >= 3:  # spread: first haplotype's allele at position 0 fixed per job
                out += [dict(ploidy=K, alleles=A, positions=N, h0=a) for a in [-1] + list(range(A))]
            else:
                out.append(dict(ploidy=K, alleles=A, positions=N))
        return out

    def bounds(self, tier):
        return "(ploidy, alleles, positions) in %s: threaded allele per haplotype and position solver-chosen from {-1, 0..alleles-1}, genotype = solver-chosen allele subset with symbolic multiplicities summing to the ploidy, threads through one or two clusters (solver-chosen pattern; ploidy 3 x 3 alleles: two clusters only), arbitrary likelihood per candidate permutation" % sorted({(s["ploidy"], s["alleles"], s["positions"]) for s in self.shapes(tier)})

    def harness(self, e, shape, impl):
        K, A, N = shape["ploidy"], shape["alleles"], shape["positions"]
        haps = [[None] * N for _ in range(K)]
        for pos in range(N):
            for p in range(K):
                if pos == 0 and p == 0 and "h0" in shape:
                    haps[p][pos] = shape["h0"]
                else:
                    haps[p][pos] = e.choice("h%d.%d" % (p, pos), [-1] + list(range(A)))
        genos = []
        for pos in range(N):
            g = {}
            for a in range(A):
                if e.bit("in%d.%d" % (a, pos)):
                    g[a] = e.int("g%d.%d" % (a, pos), 1, K)
            e.assume(len(g) > 0)
            total = 0
            for v in g.values():
                total = total + v
            e.assume(total == K)
            genos.append(g)
        path, cov_map, depths = [], [], []
        for pos in range(N):
            pat = e.choice("path%d" % pos, ["one cluster", "alternating"] if K * A < 9 else ["alternating"])
            path.append([0] * K if pat == "one cluster" else [p % 2 for p in range(K)])
            cov_map.append([0, 1])
            # total depth identifies (position, cluster), observed depth the allele (see LikStub)
            depths.append({c: dict([(a, a + 1) for a in range(A)] + [(99, 1000 * pos + 100 * (c + 1))]) for c in (0, 1)})
        stub = LikStub(e)
        impl.stub_likelihoods(stub)
        before = [list(h) for h in haps]
        given = [dict(g) for g in genos]
        result, raised = None, None
        try:
            result = impl.threading.force_genotypes(path, haps, [dict(g) for g in genos], cov_map, depths, 0.05)
        except Exception as ex:
            raised = "%s: %s" % (type(ex).__name__, ex)
        finally:
            impl.stub_likelihoods(None)
        e.out("raised", raised)
        e.check(raised is None, "force_genotypes raised on a well-formed input", lambda: dict(kind="exception", error=raised, before=before, genotypes=e.value(given), path=path))
        for pos in range(N):
            col0 = [before[p][pos] for p in range(K)]
            if -1 not in col0:
                if any(a not in col0 for a in given[pos]):
                    e.cover("allele of the genotype absent from the threading")
                if any(a not in given[pos] for a in col0):
                    e.cover("threaded allele absent from the genotype")
            pr = stub.probs.get(pos, [])
            zero = [bool(p == 0) for p in pr]
            if any(zero):
                e.cover("a permutation with probability zero")
            if sum(1 for z in zero if not z) >= 2:
                e.cover("two permutations compared on finite likelihoods")

        def extra(pos):
            pr = stub.probs.get(pos, [])
            return dict(kind="all-permutations-probability-zero" if pr and all(bool(p == 0) for p in pr) else "other", permutations=len(pr), path=path[pos])

        _check_forced(e, A, K, N, before, result, given, extra)

    def classify(self, shape, violation):
        info = violation.get("info") or {}
        return "force:%s:%s" % (info.get("kind", "?"), violation["msg"])


class Underflow(_Base):
    name = "underflow"
    encoded = ["whatshap.polyphase.threading.force_genotypes (with the real scipy.stats.binom and math.log)"]
    assumptions = ["concrete family: ploidy 2, both haplotypes threaded through one cluster that shows only allele 0 at depth d, genotype 0/1; d solver-chosen from {10, 1100}"]
    required_cover = ["genotype had to be forced"]

    def bounds(self, tier):
        return "one concrete scenario family, depth in {10, 1100}; no stubs"

    def harness(self, e, shape, impl):
        d = e.choice("depth", [10, 1100])
        impl.stub_likelihoods(None)
        haps = [[0], [0]]
        genos = [{0: 1, 1: 1}]
        result = impl.threading.force_genotypes([[0, 0]], haps, [dict(g) for g in genos], [[0]], [{0: {0: d}}], 0.05)
        _check_forced(e, 2, 2, 1, [[0], [0]], result, genos, lambda pos: dict(kind="all-permutations-probability-zero" if d > 1074 else "other", depth=d))

    classify = Force.classify


CONF = [0.0, 0.3, 0.7, 0.995, 1.0]


class Cuts(_Base):
    name = "cuts"
    encoded = ["whatshap.polyphase.algorithm.aggregate_results", "whatshap.polyphase.algorithm.compute_cut_positions", "whatshap.cli.polyphase.phase_single_individual", "whatshap.polyphase.create_genotype_list", "whatshap.polyphase.PhaseBreakpoint"]
    assumptions = [
        "block results have the shape the pipeline produces: per block strictly increasing breakpoint positions in 1..n-1 (find_breakpoints / integrate_sub_results), haplotype sets of size >= 2, confidences in [0,1] (representatives 0, 0.3, 0.7, 0.995, 1)",
        "read-covered positions are pairwise distinct (a ReadSet's position set)",
    ]
    stubs = [
        "solve_polyphase_instance -> aggregate_results(arbitrary block results, ploidy, borders) (clustering / threading / reordering are not applicable); AlleleMatrix -> token; plots off",
        "vf/models/core_model.py Read / ReadSet / Genotype on the symbolic side (replay: compiled whatshap.core)",
    ]
    required_cover = ["two phase sets", "one phase set over >= 2 positions", "breakpoint that does not cut", "position with -1 left out of the super-reads", "adjacent positions", "block start bridged by a pre-phasing"]

    def shapes(self, tier):
        blocks = [(1,), (2,), (3,), (1, 2), (2, 1), (1, 1, 1)]
        if tier == "thorough":
            blocks += [(4,), (2, 2)]
        out = []
        for K in (2, 3):
            for b in blocks:
                for s in range(6):
                    if K == 3 and tier == "quick" and sum(b) > 2 and s in (1, 3):
                        continue  # quick: ploidy 3 skips the sensitivities that share thresholds with 0 / 2
                    out.append(dict(ploidy=K, blocks=list(b), sensitivity=s))
        return sorted(out, key=lambda s: -max(s["blocks"]))

    def bounds(self, tier):
        sh = self.shapes(tier)
        return "ploidy 2-3, block sizes %s, block-cut sensitivity 0-5 (%d shapes); per block-internal position an optional breakpoint out of 6 (haplotype set x confidence) kinds; positions symbolic (strictly increasing, adjacency decided by the solver); per position haplotype column with or without -1; for sensitivity 0 an arbitrary set of block starts bridged by a pre-phasing" % (sorted({tuple(s["blocks"]) for s in sh}), len(sh))

    def harness(self, e, shape, impl):
        K, blocks, s = shape["ploidy"], shape["blocks"], shape["sensitivity"]
        N = sum(blocks)
        pp, alg, cli = impl.polyphase, impl.algorithm, impl.cli
        pos = [e.int("p%d" % k, 1, 60) for k in range(N)]
        for k in range(1, N):
            e.assume(pos[k - 1] < pos[k])
        hapsets = [list(range(K)), [0, 1], [K - 2, K - 1]]
        kinds = [None, (0, 0), (1, 1), (1, 2), (2, 2), (0, 3), (1, 4)]  # (haplotype set, confidence) indices
        results, columns, starts, off = [], [], [], 0
        for b, n in enumerate(blocks):
            bps = []
            for j in range(1, n):
                kd = e.choice("bp%d.%d" % (b, j), kinds)
                if kd is not None:
                    bps.append(pp.PhaseBreakpoint(j, list(hapsets[kd[0]]), CONF[kd[1]]))
            haps = [[] for _ in range(K)]
            for j in range(n):
                undetermined = e.bit("undet%d" % (off + j))
                col = [(i + j) % 2 for i in range(K)]
                if undetermined:
                    col[(off + j) % K] = -1
                columns.append(col)
                for i in range(K):
                    haps[i].append(col[i])
            results.append(pp.PolyphaseBlockResult(b, [[2 * b], [2 * b + 1]], [[i % 2 for i in range(K)] for _ in range(n)], haps, bps))
            starts.append(off)
            off += n
        borders = []
        if s == 0:  # only then solve_polyphase_instance passes pre-phasing borders
            borders = [st for st in starts if st > 0 and e.bit("border%d" % st)]
            if starts[1:] and len(borders) < len(starts) - 1 and borders:
                e.cover("block start bridged by a pre-phasing")
        # ---- the real phase_single_individual with the heuristic stages replaced
        readset = impl.core.ReadSet()
        read = impl.core.Read("r1", 60, 0, 0)
        for k in range(N):
            read.add_variant(pos[k], k % 2, 30)
        readset.add(read)

        class Table:
            def genotypes_of(self, sample):
                return [impl.core.Genotype([0, 1] + [0] * (K - 2)) for _ in range(N)]

        param = pp.PolyphaseParameter(ploidy=K, ce_bundle_edges=False, distrust_genotypes=False, min_overlap=2, block_cut_sensitivity=s, plot_clusters=False, plot_threading=False, threads=1, use_prephasing=False)
        seen = {}

        def fake_solve(allele_matrix, genotype_list, prm, timers, partial_phasing=None, quiet=False):
            seen["genotypes"] = genotype_list
            seen["result"] = alg.aggregate_results(results, K, borders)
            return seen["result"]

        cli.solve_polyphase_instance, cli.AlleleMatrix = fake_solve, (lambda rs: "allele-matrix")
        raised = None
        try:
            components, haploid, superreads = cli.phase_single_individual(readset, Table(), "sample", param, None, None)
        except Exception as ex:
            raised = "%s: %s" % (type(ex).__name__, ex)
        finally:
            cli.solve_polyphase_instance, cli.AlleleMatrix = impl.real_solve, impl.real_am
        e.out("raised", raised)
        e.check(raised is None, "phase_single_individual raised on block results of the right shape", lambda: dict(error=raised, blocks=blocks, positions=e.value(pos)))
        cuts, hap_cuts = alg.compute_cut_positions(seen["result"].breakpoints, K, s)
        e.out("cuts", list(cuts))
        e.out("hap_cuts", [list(h) for h in hap_cuts])
        comp = [components.get(pos[k]) for k in range(N)]
        ctx = lambda: dict(positions=e.value(pos), components=e.value(comp), cuts=cuts, blocks=blocks, breakpoints=[(b.position, b.haplotypes, b.confidence) for b in seen["result"].breakpoints], columns=columns)
        # ---- phase sets: disjoint intervals of consecutive covered positions named by their first position
        e.check(all(c is not None for c in comp), "a read-covered position has no phase set", ctx)
        e.check(comp[0] == pos[0], "the first covered position is not the start of its phase set", ctx)
        first = [0]
        for k in range(1, N):
            if comp[k] == comp[k - 1]:
                continue
            e.check(comp[k] == pos[k], "a phase set is not an interval named by its first position", ctx)
            first.append(k)
        e.out("phase_set_starts", first)
        e.check(first == list(cuts), "the phase sets are not the intervals given by the cut positions", ctx)
        if len(first) >= 2:
            e.cover("two phase sets")
        if any(b - a >= 2 for a, b in zip(first, first[1:] + [N])):
            e.cover("one phase set over >= 2 positions")
        if any(b.position not in cuts for b in seen["result"].breakpoints):
            e.cover("breakpoint that does not cut")
        for k in range(1, N):
            if pos[k] == pos[k - 1] + 1:
                e.cover("adjacent positions")
        e.out("haploid", [[e.value(haploid[pos[k]][j]) for j in range(K)] if pos[k] in haploid else None for k in range(N)])
        # ---- super-reads: the haplotype alleles at exactly the positions without -1
        sr = list(superreads)
        e.check(len(sr) == K, "not one super-read per haplotype", ctx)
        for i in range(K):
            got = [(v.position, v.allele) for v in sr[i]]
            want = [(pos[k], columns[k][i]) for k in range(N) if -1 not in columns[k]]
            e.check(len(got) == len(want), "a super-read covers other positions than those without an undetermined allele", ctx)
            for (gp, ga), (wp, wa) in zip(got, want):
                e.check(gp == wp, "a super-read covers other positions than those without an undetermined allele", ctx)
                e.check(ga == wa, "a super-read does not carry the haplotype's allele", ctx)
        if any(-1 in c for c in columns):
            e.cover("position with -1 left out of the super-reads")

    def classify(self, shape, violation):
        return "cuts:%s" % violation["msg"]


SUBCHECKS = {c.name: c for c in [Force(), Underflow(), Cuts()]}

if __name__ == "__main__":
    from vf import runner

    sys.exit(runner.main("checks.c15", sys.argv[1:]))


# ---------------------------------------------------------------------------
# reordering stage: integrating solved sub-instances only permutes alleles within a position
# (added after seeded change C15-1; the ILP / likelihood search that produces the sub-results stays not applicable)
# ---------------------------------------------------------------------------
class ReorderIntegrate(SubCheck):
    name = "reorder_integrate"
    encoded = ["whatshap.polyphase.reorder.integrate_sub_results", "find_breakpoints"]
    sources = ["whatshap/polyphase/reorder.py", "whatshap/polyphase/__init__.py"]
    stubs = ["AlleleMatrix / sub-matrix replaced by position maps (globalToLocal, localToGlobal, getPositions, getNumPositions)", "the sub-instance result is an ARBITRARY column-wise permutation of the alleles the collapsed threads carried, with an arbitrary subset of entries undetermined (-1) - what a recursive run_reordering can return"]
    assumptions = ["sub-results permute, per position, the alleles of the haplotypes threaded through the collapsed cluster (the contract of run_reordering on the sub-instance), some possibly undetermined"]
    required_cover = ["undetermined entry in a sub-result", "sub-result changes a slot"]

    def shapes(self, tier):
        out = [dict(ploidy=3, threads=2, npos=2), dict(ploidy=3, threads=3, npos=1), dict(ploidy=4, threads=2, npos=2)]
        if tier != "quick":
            out += [dict(ploidy=4, threads=3, npos=2), dict(ploidy=4, threads=4, npos=1), dict(ploidy=3, threads=2, npos=2, alleles=[0, 1, 2])]
        return out

    def bounds(self, tier):
        return "ploidy 3-4, 2-3 (thorough 4) haplotypes threaded through one collapsed cluster, 1-2 positions, alleles {0,1} ({0,1,2} in one thorough shape) on the collapsed haplotypes; every permutation and every -1 mask of the sub-result"

    def setup(self):
        from vf import build
        from vf.models import core_model

        build.prepare_repo()
        import whatshap.polyphase.solver  # noqa
        import whatshap.polyphase.reorder as r_re
        import whatshap.polyphase as r_pp

        ov = {"whatshap.core": core_model, "whatshap.polyphase.solver": sys.modules["whatshap.polyphase.solver"]}
        w = SymWorld(overrides=ov)
        self._sym = (w.load("whatshap.polyphase.reorder"), w.load("whatshap.polyphase"))
        self._real = (r_re, r_pp)

    def sym_impl(self):
        return self._sym

    def real_impl(self):
        return self._real

    def harness(self, e, shape, impl):
        reorder, pp = impl
        P, T, N = shape["ploidy"], shape["threads"], shape["npos"]
        thread_set = list(range(P - T, P))  # the last T haplotypes run through the collapsed cluster
        alleles = shape.get("alleles", [0, 1])
        hap = [[e.choice("a_%d_%d" % (h, p), alleles) if h in thread_set else (h + p) % 2 for p in range(N)] for h in range(P)]
        before = [list(r) for r in hap]
        sub = [[None] * N for _ in range(T)]
        changed = masked = False
        for p in range(N):
            perm = e.perm("perm_%d" % p, T)
            for j in range(T):
                v = before[thread_set[perm[j]]][p]
                if e.bit("undet_%d_%d" % (j, p)):
                    v = -1
                    masked = True
                sub[j][p] = v
                if v != before[thread_set[j]][p]:
                    changed = True
        if masked:
            e.cover("undetermined entry in a sub-result")
        if changed:
            e.cover("sub-result changes a slot")

        class AM:
            def globalToLocal(s, g):
                return g

            def getNumPositions(s):
                return N

        class Sub:
            def getPositions(s):
                return list(range(N))

            def localToGlobal(s, l):
                return l

        res = pp.PolyphaseBlockResult(block_id=0, clustering=[], threads=[], haplotypes=sub, breakpoints=[])
        threads = [[0] * P for _ in range(N)]
        reorder.integrate_sub_results(AM(), [(0, thread_set, Sub())], [res], threads, hap)
        e.out("haplotypes", [list(r) for r in hap])
        for p in range(N):
            col = [hap[h][p] for h in range(P)]
            if -1 in col:
                continue  # the position is left unphased downstream
            e.check(sorted(col) == sorted(before[h][p] for h in range(P)), "integrating a sub-instance result changed the allele multiset of a position without marking it undetermined", lambda p=p: dict(position=p, before=[r[p] for r in before], after=col, sub_result=[r[p] for r in sub]))


SUBCHECKS["reorder_integrate"] = ReorderIntegrate()


# =====================================================================================================================
# phase_block: the orchestration of phase_single_block (clustering -> threading -> recursive sub-instances -> integration)
# =====================================================================================================================
class PhaseBlock(SubCheck):
    """phase_single_block and the recursive solve_polyphase_instance call for collapsed clusters, with the heuristic stages
    replaced by their contracts: run_threading returns haplotypes that carry the given genotype at every position when
    genotypes are trusted (sub-check `force` establishes that for force_genotypes) and arbitrary alleles otherwise;
    find_subinstances returns a solver-chosen collapsed cluster; run_reordering is the identity here (its integration step
    is sub-check reorder_integrate).  Asserted: with trusted genotypes the block result carries the input genotype at every
    position - also at the positions that were re-solved in a sub-instance."""

    name = "phase_block"
    encoded = ["whatshap.polyphase.algorithm.phase_single_block (both recursion levels)", "solve_polyphase_instance (sequential branch)", "aggregate_results", "whatshap.polyphase.reorder.integrate_sub_results", "find_breakpoints"]
    sources = ["whatshap/polyphase/algorithm.py", "whatshap/polyphase/reorder.py", "whatshap/polyphase/__init__.py"]
    stubs = ["scoreReadset / ClusterEditingSolver: one cluster holding all reads", "run_threading: contract stub (see above; the alleles are solver-chosen within the contract)", "find_subinstances: solver-chosen collapsed cluster (2 of the haplotypes, a subset of the positions) at the top level, none below",
             "run_reordering: identity", "compute_block_starts: one block", "AlleleMatrix: position maps"]
    assumptions = ["genotypes trusted at the top level (param.distrust_genotypes False)", "run_threading honours its distrust_genotypes argument as force_genotypes does"]
    required_cover = ["sub-instance solved", "sub-instance result differs from the threaded haplotypes", "no sub-instance"]

    def shapes(self, tier):
        out = [dict(ploidy=3, npos=2), dict(ploidy=4, npos=2)]
        if tier != "quick":
            out += [dict(ploidy=3, npos=3), dict(ploidy=4, npos=3)]
        return out

    def bounds(self, tier):
        return "ploidy 3-4, 2 (thorough: 3) positions, biallelic genotypes with solver-chosen dosage, one optional collapsed cluster of 2 haplotypes over >= 2 positions; alleles returned by the threading stub solver-chosen within its contract"

    def setup(self):
        from vf import build
        from vf.models import core_model

        build.prepare_repo()
        import whatshap.align, whatshap._variants, whatshap.readselect, whatshap.priorityqueue, whatshap.polyphase.solver  # noqa: E401
        import whatshap.polyphase.algorithm as r_alg
        import whatshap.polyphase as r_pp

        ov = {"whatshap.core": core_model, "whatshap.polyphase.solver": sys.modules["whatshap.polyphase.solver"]}
        for n in ("align", "_variants", "readselect", "priorityqueue"):
            ov["whatshap." + n] = sys.modules["whatshap." + n]
        w = SymWorld(overrides=ov)
        self._sym = (w.load("whatshap.polyphase.algorithm"), w.load("whatshap.polyphase"))
        self._real = (r_alg, r_pp)

    def sym_impl(self):
        return self._sym

    def real_impl(self):
        return self._real

    def harness(self, e, shape, impl):
        alg, pp = impl
        P, N = shape["ploidy"], shape["npos"]
        dosage = [e.choice("dosage_%d" % p, list(range(1, P))) for p in range(N)]  # number of 1-alleles, heterozygous
        genotypes = [{0: P - d, 1: d} for d in dosage]
        use_sub = bool(e.bit("collapsed_cluster"))
        e.cover("sub-instance solved" if use_sub else "no sub-instance")
        level = [0]
        calls = []

        class Matrix:
            def __init__(s, positions):
                s.pos = list(positions)

            def __len__(s):
                return 4

            def getNumPositions(s):
                return len(s.pos)

            def getPositions(s):
                return list(s.pos)

            def globalToLocal(s, g):
                return s.pos.index(g)

            def localToGlobal(s, l):
                return s.pos[l]

            def getGlobalId(s, r):
                return r

            def extractInterval(s, a, b):
                return Matrix(s.pos[a:b])

        def conforming(tag, geno, ploidy):
            """haplotypes (list per haplotype) carrying `geno` at every position: a solver-chosen arrangement"""
            cols = []
            for p, g in enumerate(geno):
                alleles = sorted(a for a, c in g.items() for _ in range(c))
                perm = e.perm("%s_arr_%d" % (tag, p), ploidy) if ploidy <= 3 else ([0, 1, 2, 3] if not e.bit("%s_rev_%d" % (tag, p)) else [3, 2, 1, 0])
                cols.append([alleles[perm[h]] for h in range(ploidy)])
            return [[cols[p][h] for p in range(len(geno))] for h in range(ploidy)]

        def run_threading(am, clustering, ploidy, geno, distrust_genotypes=False):
            tag = "L%d" % level[0]
            calls.append((level[0], bool(distrust_genotypes)))
            n = am.getNumPositions()
            if distrust_genotypes:
                haps = [[e.bit("%s_free_%d_%d" % (tag, h, p)) for p in range(n)] for h in range(ploidy)]
            else:
                haps = conforming(tag, geno, ploidy)
            return [[0] * ploidy for _ in range(n)], haps

        def find_subinstances(am, clustering, threads, haplotypes):
            if level[0] > 0 or not use_sub:
                return []
            level[0] += 1
            return [(0, [P - 2, P - 1], Matrix(am.getPositions()[:2]))]

        class CE:
            def __init__(s, sim, bundle):
                pass

            def run(s):
                return [[0, 1, 2, 3]]

        saved = {k: alg.__dict__.get(k) for k in ("scoreReadset", "ClusterEditingSolver", "run_threading", "find_subinstances", "run_reordering", "compute_block_starts")}
        alg.scoreReadset = lambda am, mo, pl, err: [0]
        alg.ClusterEditingSolver = CE
        alg.run_threading = run_threading
        alg.find_subinstances = find_subinstances
        alg.run_reordering = lambda *a, **k: None
        alg.compute_block_starts = lambda am, pl, single_linkage=False: [0]

        class Timers:
            def start(s, n):
                pass

            def stop(s, n):
                pass

        try:
            param = pp.PolyphaseParameter(ploidy=P, ce_bundle_edges=False, distrust_genotypes=False, min_overlap=2, block_cut_sensitivity=4, plot_clusters=False, plot_threading=False, threads=1, use_prephasing=False)
            res = alg.phase_single_block(0, Matrix(range(N)), genotypes, None, param, Timers(), quiet=True)
        finally:
            for k, v in saved.items():
                alg.__dict__[k] = v
        haps = [list(h) for h in res.haplotypes]
        e.out("haplotypes", haps)
        e.out("threading_calls", calls)
        if use_sub and len(calls) >= 2:
            e.cover("sub-instance result differs from the threaded haplotypes")
        info = lambda: dict(ploidy=P, genotypes=genotypes, collapsed_cluster=use_sub, haplotypes=e.value(haps), threading_calls=calls)
        for p in range(N):
            col = [haps[h][p] for h in range(P)]
            if -1 in col:
                continue
            e.check(sorted(col) == sorted(a for a, c in genotypes[p].items() for _ in range(c)),
                    "the phased block does not list the alleles of the input genotype with their multiplicities (position re-solved in a sub-instance: %s)" % (use_sub and p < 2), lambda p=p: dict(info(), position=p))

    def classify(self, shape, v):
        return "phase_block:%s" % v["msg"][:80]


SUBCHECKS["phase_block"] = PhaseBlock()
